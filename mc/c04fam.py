"""C04 document families (DESIGN.md C04 "Enumerated"): every family is index-addressable; decode(i) -> case dict
{"xml": text, "area": ..., "clause": default clause, "d": discriminator label}."""
from __future__ import annotations

import bisect

from mc.docgen import Product
from mc.c04core import el, tt, head, esc

# ---------------------------------------------------------------------------------------------------
# F-time: timing skeletons

CHILD_KINDS = {"body": ["div"], "div": ["div", "p"], "p": ["span", "br"], "span": ["span", "br"]}
MAXDEPTH = 4


def _gen(kind, budget, depth):
  """all subtrees rooted at `kind` with at most `budget` elements; yields (tree, size)"""
  if budget < 1:
    return
  if kind in ("br", "set"):
    yield {"k": kind}, 1
    return
  for nsets in range(0, budget):
    if nsets and depth + 1 > MAXDEPTH:
      break
    for forest, used in _forests(CHILD_KINDS[kind], budget - 1 - nsets, depth + 1):
      yield {"k": kind, "c": [{"k": "set"} for _ in range(nsets)] + forest}, 1 + nsets + used


def _forests(kinds, budget, depth):
  yield [], 0
  if budget < 1 or depth > MAXDEPTH:
    return
  for k in kinds:
    for first, u in _gen(k, budget, depth):
      for rest, u2 in _forests(kinds, budget - u, depth):
        yield [first] + rest, u + u2


_SHAPES = {}


def shapes(n_exact):
  """all trees rooted at body with exactly n elements"""
  if n_exact not in _SHAPES:
    import copy
    _SHAPES[n_exact] = [copy.deepcopy(t) for t, s in _gen("body", n_exact, 1) if s == n_exact]
  return _SHAPES[n_exact]


def _preorder(t, out=None):
  if out is None:
    out = []
  out.append(t)
  for c in t.get("c", []):
    _preorder(c, out)
  return out


SET_PROPS = [("tts:color", "red"), ("tts:backgroundColor", "blue"), ("tts:opacity", "0.5"), ("tts:visibility", "hidden"),
             ("tts:fontStyle", "italic"), ("tts:fontWeight", "bold")]

B, D, E = "1s", "2.5s", "3s"      # begin + dur = 3.5 > end = 3: with a begin the end limits, without it the dur limits
FULL_T = [(b, d, e) for b in (None, B) for d in (None, D) for e in (None, E)]
RED_T = [(None, None, None), (B, None, None), (None, None, E), (B, D, None)]
RED3_T = [(None, None, None), (None, None, E), (B, D, None)]


def _node_domain(n, full, with_text_flag):
  """list of attribute options for one element of a shape"""
  tims = FULL_T if full is True else RED3_T if full == "red3" else RED_T
  k = n["k"]
  if k == "br":
    return [None]
  if k == "set":
    return [("set", t) for t in tims]
  has_set = any(c["k"] == "set" for c in n.get("c", []))
  tcs = ["par"] if has_set else ["par", "seq"]       # `set` children of seq containers are not generated (appendix A)
  leaf_text = k in ("p", "span") and not [c for c in n.get("c", []) if c["k"] != "set"]
  texts = [True, False] if (leaf_text and with_text_flag) else [leaf_text]
  return [(tc, t, tx) for tc in tcs for t in tims for tx in texts]


def _time_xml(shape, choice):
  nodes = _preorder(shape)
  opt = {id(n): c for n, c in zip(nodes, choice)}
  cnt = {"el": 0, "set": 0, "txt": 0}

  def ser(n):
    k = n["k"]
    o = opt[id(n)]
    if k == "br":
      return el("br")
    if k == "set":
      _s, (b, d, e) = o
      pn, pv = SET_PROPS[cnt["set"] % len(SET_PROPS)]
      cnt["set"] += 1
      return el("set", {"begin": b, "dur": d, "end": e, pn: pv})
    tc, (b, d, e), tx = o
    a = {"xml:lang": f"n{cnt['el']}", "timeContainer": "seq" if tc == "seq" else None, "begin": b, "dur": d, "end": e}
    cnt["el"] += 1
    kids = [ser(c) for c in n.get("c", [])]
    if tx:
      kids.append("abcdefgh"[cnt["txt"] % 8])
      cnt["txt"] += 1
    return el(k, a, kids)
  return tt(ser(shape))


def fam_time(sizes, full, with_text_flag, body_plain=False, body_reduced_from=None):
  """all shapes of the given sizes x the product of the per-node domains"""
  table, starts, total = [], [], 0
  for n in sizes:
    for sh in shapes(n):
      nodes = _preorder(sh)
      doms = [_node_domain(x, full, with_text_flag) for x in nodes]
      if body_plain:
        doms[0] = [("par", (None, None, None), False)]
      elif body_reduced_from is not None and n >= body_reduced_from:
        doms[0] = _node_domain(nodes[0], False, False)
      p = Product(doms)
      table.append((sh, p))
      starts.append(total)
      total += p.n

  def decode(i):
    j = bisect.bisect_right(starts, i) - 1
    sh, p = table[j]
    return {"xml": _time_xml(sh, p.decode(i - starts[j])), "area": "time", "clause": "C04.time.other"}
  return total, decode


# ---------------------------------------------------------------------------------------------------
# F-expr: time expression grid

def expr_values(fr):
  f1 = fr - 1
  return [
    ("clock", ["00:00:00", "00:00:01", "00:00:59", "00:01:00", "00:59:59", "01:00:00", "99:59:59", "100:00:00", "123:04:05"]),
    ("clock-fraction", ["00:00:00.0", "00:00:00.001", "00:00:00.999", "00:00:01.5", "00:00:59.999", "00:00:00.0001", "00:00:02.50",
                        "01:02:03.235", "100:00:00.1"]),
    ("clock-frames", ["00:00:00:00", "00:00:00:01", f"00:00:00:{f1:02d}", f"00:00:00:{fr:02d}", "00:00:01:00", f"00:00:59:{f1:02d}",
                      "01:00:00:12", "00:00:00:100", "100:00:00:10"]),
    ("h", ["0h", "1h", "0.5h", "1.25h", "10h"]),
    ("m", ["0m", "1m", "59m", "60m", "0.5m", "90m"]),
    ("s", ["0s", "1s", "59s", "60s", "0.001s", "1.5s", "3600s", "1.2s"]),
    ("ms", ["0ms", "1ms", "999ms", "1000ms", "1001ms", "0.5ms", "1500ms"]),
    ("f", ["0f", "1f", f"{f1}f", f"{fr}f", f"{fr + 1}f", "1.5f", "1000f"]),
    ("t", ["0t", "1t", "10000000t", "9999999t", "10000001t", "1.5t", "123456789t", "120t"]),
  ]


def _expr_disc(syn, fr, mult, tick):
  """only the parameters that the syntax depends on"""
  d = f"syntax={syn}"
  if syn in ("clock-frames", "f"):
    d += f",frameRate={'-' if fr is None else 'malformed' if isinstance(fr, str) else 'set'},mult={'-' if mult is None else 'set'}"
  elif syn == "t":
    d += f",tickRate={'-' if tick is None else 'set'}"
  return d


def fam_expr():
  cases = []
  for fr in (None, 24, 25, 30, "abc", "0", "25.0"):
    for mult in (None, "1000 1001"):
      for tick in (None, "1", "10000000"):
        for syn, vals in expr_values(fr if isinstance(fr, int) else 30):
          if isinstance(fr, str) and syn not in ("t", "f", "clock-frames"):
            continue                       # a malformed ttp:frameRate is ignored: only the syntaxes that could depend on it
          for v in vals:
            for pos in ("begin", "end", "dur"):
              cases.append((fr, mult, tick, syn, v, pos))

  def decode(i):
    fr, mult, tick, syn, v, pos = cases[i]
    a = {"ttp:frameRate": None if fr is None else str(fr), "ttp:frameRateMultiplier": mult, "ttp:tickRate": tick}
    pa = {"xml:lang": "n2", pos: v}
    if pos != "begin":
      pa["begin"] = "0.25s"
    xml = tt(el("body", {"xml:lang": "n0"}, [el("div", {"xml:lang": "n1"}, [el("p", pa, ["x"])])]), a)
    default_tick = syn == "t" and tick is None
    return {"xml": xml, "area": "expr", "clause": "C04.time.tickrate.default" if default_tick else "C04.time.expr",
            "d": f"frameRate={'-' if fr is None else 'malformed' if isinstance(fr, str) else 'set'}" if default_tick else _expr_disc(syn, fr, mult, tick)}
  return len(cases), decode


# ---------------------------------------------------------------------------------------------------
# F-refsep: the style attribute is an xs:IDREFS list: any XML white space separates, leading and trailing white space is allowed

REF_SEPS = [("space", " "), ("two-spaces", "  "), ("tab", "@@9@@"), ("lf", "@@10@@"), ("cr", "@@13@@"), ("tab-space", "@@9@@ ")]


def fam_refsep():
  cases = [(sn, sep, order, pad, where) for sn, sep in REF_SEPS for order in (("s1", "s2"), ("s2", "s1")) for pad in ("", "lead", "trail")
           for where in ("p", "style")]

  def decode(i):
    sn, sep, order, pad, where = cases[i]
    lst = sep.join(order)
    lst = (" " + lst) if pad == "lead" else (lst + " ") if pad == "trail" else lst
    st = [el("style", {"xml:id": "s1", "tts:color": "red", "tts:fontStyle": "italic"}),
          el("style", {"xml:id": "s2", "tts:color": "blue", "tts:fontWeight": "bold"})]
    if where == "style":
      st.append(el("style", {"xml:id": "s3", "tts:textAlign": "center", "style": lst}))
    body = el("body", None, [el("div", None, [el("p", {"xml:lang": "tg", "style": lst if where == "p" else "s3"}, ["x"])])])
    xml = tt(head("".join(st), "") + body)
    for n in ("9", "10", "13"):
      xml = xml.replace(f"@@{n}@@", f"&#{n};")
    return {"xml": xml, "area": "graph", "clause": "C04.style.refsep", "d": f"sep={sn},pad={pad or '-'},where={where}", "cyclic": False, "key": None}
  return len(cases), decode


# ---------------------------------------------------------------------------------------------------
# F-graph: style reference graphs (<= 3 style elements, every reference relation, missing id, cycles)

STYLE_OWN = {"s1": ("red", ("tts:fontStyle", "italic")), "s2": ("green", ("tts:fontWeight", "bold")), "s3": ("blue", ("tts:textAlign", "center"))}
SIDS = ["s1", "s2", "s3"]


def _ref_options(others, full):
  a, b = others
  o = [[], [a], [b], [a, b], [b, a], ["nx"], [a, b, a], [b, b]]      # an id may be repeated: the last occurrence decides
  if full:
    o += [[a, "nx"], ["nx", a], [b, "nx"], ["nx", b]]
  return o


ELEM_REFS = [[]] + [[s] for s in SIDS] + [[a, b] for a in SIDS for b in SIDS if a != b] + [["nx", "s1"], ["s1", "nx"]] + \
            [[a, b, a] for a in SIDS for b in SIDS if a != b] + [["s1", "s1"], ["s2", "s3", "s3", "s2"]]
TARGETS_P = ["p"]
TARGETS_R = ["region", "region+n1", "region+n1+n2", "region+n1ref"]


def _graph_features(refs, erefs):
  """depth of chaining reachable from the element, diamond, missing id, cycle"""
  reach, missing, cyc = set(), False, False

  def depth(s, stack):
    nonlocal missing, cyc
    if s == "nx":
      missing = True
      return 0
    if s in stack:
      cyc = True
      return 0
    reach.add(s)
    return 1 + max([depth(r, stack + (s,)) for r in refs[s]] or [0])
  dmax = max([depth(s, ()) for s in erefs] or [0])
  paths = {}

  def count(s, stack):
    if s == "nx" or s in stack:
      return
    paths[s] = paths.get(s, 0) + 1
    for r in refs[s]:
      count(r, stack + (s,))
  for s in erefs:
    count(s, ())
  diamond = any(v > 1 for v in paths.values())
  return dmax, diamond, missing, cyc


def fam_graph(full, region_targets):
  if not region_targets:
    doms = [_ref_options(("s2", "s3"), full), _ref_options(("s1", "s3"), full), _ref_options(("s1", "s2"), full),
            list(range(8)), ELEM_REFS, [False, True], TARGETS_P]
  else:
    simple = lambda a: [[], [a]]
    doms = [simple("s2"), simple("s3"), simple("s1"), list(range(8)), ELEM_REFS, [False, True], TARGETS_R]
  prod = Product(doms)

  def decode(i):
    r1, r2, r3, mask, erefs, inline, target = prod.decode(i)
    refs = {"s1": r1, "s2": r2, "s3": r3}
    st = []
    for j, sid in enumerate(SIDS):
      color, (bn, bv) = STYLE_OWN[sid]
      a = {"xml:id": sid, bn: bv}
      if mask >> j & 1:
        a["tts:color"] = color
      if refs[sid]:
        a["style"] = " ".join(refs[sid])
      st.append(el("style", a))
    ta = {"xml:lang": "tg"}
    if erefs:
      ta["style"] = " ".join(erefs)
    if inline:
      ta["tts:color"] = "yellow"
    if target == "p":
      body = el("body", None, [el("div", None, [el("p", ta, ["x"])])])
      layout = ""
    else:
      nested = []
      if "+n1ref" in target:
        nested.append(el("style", {"tts:backgroundColor": "aqua", "style": "s1"}))
      elif "+n1" in target:
        nested.append(el("style", {"tts:color": "aqua", "tts:backgroundColor": "aqua"}))
      if "+n2" in target:
        nested.append(el("style", {"tts:color": "purple"}))
      ta["xml:id"] = "r1"
      layout = el("region", ta, nested)
      body = el("body", None, [el("div", None, [el("p", {"region": "r1"}, ["x"])])])
    dmax, diamond, missing, cyc = _graph_features(refs, erefs)
    if cyc:
      clause = "C04.style.cycle"
    elif "n1ref" in target:
      clause = "C04.style.nested.chain"
    elif dmax >= 2:
      clause = "C04.style.chain"
    else:
      clause = "C04.style.precedence"
    d = "nested-style-with-reference" if clause == "C04.style.nested.chain" else "inline-attribute-loses" if cyc else \
        f"target={target.split('+')[0]},depth={min(dmax, 2)},diamond={int(diamond)},missing={int(missing)}"
    return {"xml": tt(head("".join(st), layout) + body), "area": "graph", "clause": clause, "d": d, "cyclic": cyc, "key": None}
  return prod.n, decode


# ---------------------------------------------------------------------------------------------------
# F-value: per-attribute value grids

NAMED = ["transparent", "black", "silver", "gray", "white", "maroon", "red", "purple", "fuchsia", "magenta", "green", "lime", "olive",
         "yellow", "navy", "blue", "teal", "aqua", "cyan"]
COLORS = [("named", c) for c in NAMED] + [("hex6", "#ff0000"), ("hex6", "#0a0B0c"), ("hex8", "#FF000080"), ("hex8", "#00ff007f"),
                                          ("rgb", "rgb(255,0,0)"), ("rgb", "rgb(0,0,0)"), ("rgba", "rgba(0,128,255,64)"), ("rgba", "rgba(1,2,3,0)")]


def _kw(*v):
  return [("keyword", x) for x in v]


VALUES = {
  "tts:backgroundColor": COLORS,
  "tts:color": COLORS,
  "tts:direction": _kw("ltr", "rtl"),
  "tts:disparity": [("px", "0px"), ("px", "10px"), ("neg", "-10px"), ("%", "2%"), ("neg", "-0.5c"), ("rw", "1rw"), ("rh", "1rh"), ("em", "1em")],
  "tts:display": _kw("auto", "none"),
  "tts:displayAlign": _kw("before", "center", "after"),
  "tts:extent": [("auto", "auto"), ("%", "100% 100%"), ("%", "80% 10%"), ("px", "640px 480px"), ("c", "10c 2c"), ("rwrh", "50rw 50rh"),
                 ("%", "0.5% 12.5%"), ("mixed", "100px 10%")],
  "tts:fontFamily": [("generic", g) for g in ("default", "monospace", "sansSerif", "serif", "monospaceSansSerif", "monospaceSerif",
                                              "proportionalSansSerif", "proportionalSerif")] +
                    [("name", "Arial"), ("list", "Arial, Helvetica"), ("list-nospace", "Arial,Helvetica,proportionalSansSerif"),
                     ("squote", "'Times New Roman'"), ("dquote", '"Times New Roman", serif'), ("unquoted-words", "Times New Roman"),
                     ("quoted-generic", "'default'"), ("escape", r'"bar \"q\""'), ("escape-unquoted", r"foo\,bar, serif"),
                     ("one-char", "A"), ("one-char", "A, serif"), ("space-before-comma", "Arial , serif"),
                     ("space-before-comma", "serif , Arial"), ("quoted-comma", '"a,b", cd')],
  "tts:fontSize": [("c", "1c"), ("c", "1.5c"), ("%", "100%"), ("%", "150%"), ("em", "2em"), ("em", "0.5em"), ("px", "24px"),
                   ("rh", "10rh"), ("rw", "5rw"), ("nolead", ".5c")],
  "tts:fontStyle": _kw("normal", "italic", "oblique"),
  "tts:fontWeight": _kw("normal", "bold"),
  "tts:lineHeight": [("normal", "normal"), ("%", "125%"), ("em", "1.2em"), ("px", "20px"), ("c", "1c"), ("rh", "5rh")],
  "tts:luminanceGain": [("num", x) for x in ("1", "1.0", "0.5", "2", "0", ".5")],
  "tts:opacity": [("num", x) for x in ("1", "0", "0.5", "1.0", ".25")],
  "tts:origin": [("auto", "auto"), ("%", "0% 0%"), ("%", "10% 80%"), ("px", "64px 48px"), ("c", "1c 1c"), ("rwrh", "5rw 5rh"), ("neg", "-5% 10%")],
  "tts:overflow": _kw("visible", "hidden"),
  "tts:padding": [("1", "1c"), ("1", "0.5em"), ("2", "5% 10%"), ("3", "1px 2px 3px"), ("4", "1px 2px 3px 4px"), ("2", "1c 5%"), ("2", "1rh 1rw"),
                  ("4", "0% 1c 2px 3em")],
  "tts:position": [("1", x) for x in ("center", "left", "right", "top", "bottom", "25%", "10px")] +
                  [("2", x) for x in ("bottom center", "bottom left", "bottom right", "center center", "center top", "center bottom", "center left",
                                      "center right", "center 33%", "left center", "left top", "left bottom", "left 45%", "right center", "right top",
                                      "right bottom", "right 20%", "top center", "top left", "top right", "75% center", "75% top", "75% bottom",
                                      "75% 75%", "10px 20px", "2c 1c")] +
                  [("3", x) for x in ("bottom left 1%", "bottom right 2%", "bottom 3% center", "bottom 4% left", "bottom 5% right", "center bottom 6%",
                                      "center left 7%", "center right 8%", "center top 9%", "left bottom 10%", "left top 11%", "left 12% bottom",
                                      "left 13% center", "left 14% top", "right bottom 15%", "right top 16%", "right 17% bottom", "right 18% center",
                                      "right 19% top", "top left 20%", "top right 21%", "top 22% center", "top 23% left", "top 24% right",
                                      "right 10px center")] +
                  [("4", x) for x in ("bottom 25% left 75%", "bottom 25% right 75%", "left 25% bottom 75%", "right 25% bottom 75%", "top 25% left 75%",
                                      "top 25% right 75%", "left 25% top 75%", "right 25% top 75%", "left 10px top 20px", "right 10c bottom 2c")],
  "tts:rubyAlign": _kw("center", "spaceAround"),
  "tts:rubyPosition": _kw("before", "after", "outside"),
  "tts:rubyReserve": [("none", "none"), ("pos", "both"), ("pos", "before"), ("pos", "after"), ("pos", "outside"), ("pos+len", "both 1em"),
                      ("pos+len", "outside 50%"), ("pos+len", "before 1c"), ("pos+len", "after 10px")],
  "tts:shear": [("%", "0%"), ("%", "16.67%"), ("neg", "-16.67%"), ("%", "100%"), ("clamp", "150%"), ("clamp", "-150%"), ("sign", "+10%")],
  "tts:showBackground": _kw("always", "whenActive"),
  "tts:textAlign": _kw("start", "center", "end"),
  "tts:textCombine": _kw("none", "all"),
  "tts:textDecoration": [("none", "none")] + [("1", x) for x in ("underline", "noUnderline", "lineThrough", "noLineThrough", "overline", "noOverline")] +
                        [("2", "underline overline"), ("2", "overline underline"), ("3", "underline lineThrough overline"),
                         ("3", "noUnderline noLineThrough noOverline"), ("2", "noUnderline lineThrough")],
  "tts:textEmphasis": [("none", "none"), ("auto", "auto")] + [("style", x) for x in ("filled", "open", "circle", "dot", "sesame", "filled circle",
                       "open dot", "filled sesame", "open sesame", "open circle", "filled dot", "sesame open")] +
                      [("style+pos", x) for x in ("dot after", "dot before", "auto outside", "open before", "filled after")] +
                      [("pos", "after"), ("color", "red"), ("color", "current"), ("style+color", "filled circle red"), ("all", "circle red before"),
                       ("all", "dot current after"), ("all", "#ff0000 open sesame outside"), ("all", "before rgba(1,2,3,4) auto")],
  "tts:textOutline": [("none", "none"), ("len", "1px"), ("len", "0.1em"), ("len", "10%"), ("color+len", "red 1px"), ("color+len", "#ff0000 10%"),
                      ("color+len", "rgba(0,0,0,128) 0.05c"), ("color+len", "transparent 1rh")],
  "tts:textShadow": [("none", "none"), ("2len", "1px 1px"), ("2len", "-1px -1px"), ("3len", "1px 1px 2px"), ("2len+color", "1px 1px red"),
                     ("3len+color", "1px 1px 2px red"), ("3len+color", "0.1em 0.1em 0.05em #000000"), ("3len+rgba()", "1px 1px 2px rgba(0,0,0,128)"),
                     ("multi,comma", "1px 1px 2px red,2px 2px 3px blue"), ("multi,comma-space", "1px 1px 2px red, 2px 2px 3px blue"),
                     ("multi,comma-space", "1px 1px red, -1px -1px 1px blue")],
  "tts:unicodeBidi": _kw("normal", "embed", "bidiOverride"),
  "tts:visibility": _kw("visible", "hidden"),
  "tts:wrapOption": _kw("wrap", "noWrap"),
  "tts:writingMode": _kw("lrtb", "rltb", "tbrl", "tblr", "lr", "rl", "tb"),
  "itts:fillLineGap": _kw("false", "true"),
  "ebutts:linePadding": [("c", "0c"), ("c", "0.5c"), ("c", "1c")],
  "ebutts:multiRowAlign": _kw("start", "center", "end", "auto"),
}

CARRIERS = ["p", "region", "style", "initial", "set", "nested", "span"]


def value_doc(attr, value, carrier):
  a = {attr: value}
  styling = layout = ""
  pa = {"xml:lang": "tg"}
  kids = ["x"]
  if carrier == "p":
    pa.update(a)
  elif carrier == "span":
    kids = [el("span", a, ["x"])]
  elif carrier == "region":
    layout = el("region", dict({"xml:id": "r1"}, **a))
  elif carrier == "nested":
    layout = el("region", {"xml:id": "r1"}, [el("style", a)])
  elif carrier == "style":
    styling = el("style", dict({"xml:id": "s1"}, **a))
    pa["style"] = "s1"
  elif carrier == "initial":
    styling = el("initial", a)
  elif carrier == "set":
    kids = [el("set", dict({"begin": "1s", "end": "2s"}, **a)), "x"]
  body = el("body", None, [el("div", None, [el("p", pa, kids)])])
  return tt(head(styling, layout) + body)


def fam_value():
  cases = [(attr, lab, v, c) for attr, vals in VALUES.items() for lab, v in vals for c in CARRIERS]

  def decode(i):
    attr, lab, v, c = cases[i]
    local = attr.split(":")[1]
    return {"xml": value_doc(attr, v, c), "area": "value", "clause": f"C04.style.value.{local}", "d": f"form={lab}"}
  return len(cases), decode


# ---------------------------------------------------------------------------------------------------
# F-spacelang: xml:space and xml:lang on tt, body, p, span (root + three levels), region included

SPACES = [None, "default", "preserve"]
LANGS = [None, "fr", ""]


def fam_spacelang():
  prod = Product([SPACES] * 4 + [LANGS] * 4)

  def decode(i):
    s0, s1, s2, s3, l0, l1, l2, l3 = prod.decode(i)
    span = el("span", {"xml:space": s3, "xml:lang": l3}, [" u ", el("span", None, ["v"]), el("br")])
    p = el("p", {"xml:space": s2, "xml:lang": l2}, [" t ", span, "  w"])
    body = el("body", {"xml:space": s1, "xml:lang": l1}, [el("div", None, [p])])
    xml = tt(head("", el("region", {"xml:id": "r1"})) + body, {"xml:space": s0}, lang=l0)
    return {"xml": xml, "area": "spacelang", "clause": "C04.anonspan", "d": "spacelang"}
  return prod.n, decode


# ---------------------------------------------------------------------------------------------------
# F-mixed: mixed content of p and span

TOK = {"T": "a", "W": "  \n ", "S": None, "E": None, "B": None, "N": None}


def _tok_xml(t, j):
  if t == "T":
    return "abcdefgh"[j % 8]
  if t == "W":
    return "  \n "
  if t == "S":
    return el("span", None, ["s" + str(j)])
  if t == "E":
    return el("span")
  if t == "B":
    return el("br")
  return el("span", None, ["n", el("br"), " m ", el("span", None, ["k"])])


def fam_mixed(maxlen):
  seqs = [[]]
  frontier = [[]]
  for _ in range(maxlen):
    frontier = [s + [t] for s in frontier for t in "TWSEBN"]
    seqs += frontier
  prod = Product([list(range(len(seqs))), ["p", "span"], ["par", "seq"], [None, "preserve"]])

  def decode(i):
    si, container, tc, space = prod.decode(i)
    toks = seqs[si]
    kids = [_tok_xml(t, j) for j, t in enumerate(toks)]
    a = {"timeContainer": "seq" if tc == "seq" else None, "xml:space": space, "dur": "5s" if tc == "seq" else None}
    if container == "p":
      p = el("p", a, kids)
    else:
      p = el("p", None, [el("span", a, kids)])
    return {"xml": tt(el("body", None, [el("div", None, [p])])), "area": "mixed", "clause": "C04.anonspan",
            "d": f"in={container},tc={tc}"}
  return prod.n, decode


# ---------------------------------------------------------------------------------------------------
# F-ruby: ruby containers

def _rb(kind, content, attrs=None):
  a = {"tts:ruby": kind}
  a.update(attrs or {})
  return el("span", a, content)


def fam_ruby():
  patterns = ["bt", "bdtd", "BC", "BCC", "BCd", "none", "nested-none", "bt-styled"]
  tim = [(None, None), ("1s", None), (None, "3s"), ("1s", "3s")]
  prod = Product([patterns, ["text", "span", "br"], tim, tim])

  def decode(i):
    pat, content, (cb, ce), (tb, te) = prod.decode(i)

    def c(s):
      if content == "br":
        # a line break inside a ruby base / text / delimiter, followed by more mixed content
        return [s, el("br"), s + "2", el("span", None, ["in"]), "tail"]
      return [s] if content == "text" else [el("span", None, [s])]
    ta = {"begin": tb, "end": te}
    if pat == "bt":
      kids = [_rb("base", c("B")), _rb("text", c("T"), ta)]
    elif pat == "bt-styled":
      kids = [_rb("base", c("B"), {"tts:color": "red"}), _rb("text", c("T"), dict(ta, **{"tts:rubyPosition": "after", "tts:rubyAlign": "spaceAround", "tts:fontSize": "50%"}))]
    elif pat == "bdtd":
      kids = [_rb("base", c("B")), _rb("delimiter", c("(")), _rb("text", c("T"), ta), _rb("delimiter", c(")"))]
    elif pat == "BC":
      kids = [_rb("baseContainer", [_rb("base", c("B"))]), _rb("textContainer", [_rb("text", c("T"), ta)])]
    elif pat == "BCC":
      kids = [_rb("baseContainer", [_rb("base", c("B1")), _rb("base", c("B2"))]),
              _rb("textContainer", [_rb("text", c("T1"), ta), _rb("text", c("T2"))], {"tts:rubyPosition": "before"}),
              _rb("textContainer", [_rb("text", c("U"))], {"tts:rubyPosition": "after"})]
    elif pat == "BCd":
      kids = [_rb("baseContainer", [_rb("base", c("B"))]),
              _rb("textContainer", [_rb("delimiter", c("(")), _rb("text", c("T"), ta), _rb("delimiter", c(")"))])]
    if pat == "none":
      ruby = _rb("none", c("plain"), {"begin": cb, "end": ce})
    elif pat == "nested-none":
      ruby = el("span", {"begin": cb, "end": ce}, ["x", _rb("none", c("plain"), ta), "y"])
    else:
      ruby = _rb("container", kids, {"begin": cb, "end": ce})
    p = el("p", None, ["pre", ruby, "post"])
    return {"xml": tt(el("body", None, [el("div", None, [p])])), "area": "ruby", "clause": "C04.ruby",
            "d": "pattern=none" if "none" in pat else f"pattern={pat}"}
  return prod.n, decode


# ---------------------------------------------------------------------------------------------------
# F-param: document parameters

def fam_param():
  cells = [(None, "-"), ("32 15", "default"), ("40 19", "2int"), ("1 1", "2int"), ("38 12", "2int")]
  exts = [(None, "-"), ("640px 480px", "px"), ("1920px 1080px", "px"), ("auto", "auto")]
  aas = [(None, "-"), ("10% 10% 80% 80%", "4pct"), ("0% 0% 100% 100%", "4pct"), ("12.5% 5% 75% 90%", "4pct")]
  dars = [(None, None, "-"), ("16 9", None, "ttp"), (None, "4 3", "ittp"), ("64 27", None, "ttp"), (None, "1 1", "ittp")]
  prod = Product([cells, exts, aas, dars])

  def decode(i):
    (cell, cl), (ext, xl), (aa, al), (dar, iar, dl) = prod.decode(i)
    a = {"ttp:cellResolution": cell, "tts:extent": ext, "ittp:activeArea": aa, "ttp:displayAspectRatio": dar, "ittp:aspectRatio": iar}
    return {"xml": tt(el("body", None, [el("div", None, [el("p", None, ["x"])])]), a), "area": "param", "clause": "C04.param.other",
            "d": "param", "dp": {"cell": f"form={cl}", "px": f"form={xl}", "activeArea": f"form={al}", "dar": f"form={dl}"}}
  return prod.n, decode


# ---------------------------------------------------------------------------------------------------
# F-set: set animation on every kind of element, and region timing

def fam_set():
  kinds = ["body", "div", "p", "span", "br", "region"]
  ptim = [(None, None), ("1s", None), (None, "5s"), ("1s", "5s")]
  prod = Product([kinds, ptim, FULL_T, [None, "other", "same-later"]])

  def decode(i):
    kind, (pb, pe), (b, d, e), second = prod.decode(i)
    sets = [el("set", {"begin": b, "dur": d, "end": e, "tts:color": "red"})]
    if second == "other":
      sets.append(el("set", {"begin": "2s", "tts:opacity": "0.5"}))
    elif second == "same-later":
      sets.append(el("set", {"begin": "6s", "end": "7s", "tts:color": "blue"}))
    ta = {"begin": pb, "end": pe}
    layout = ""
    span = el("span", dict({"xml:lang": "n3"}, **(ta if kind == "span" else {})), (sets if kind == "span" else []) + ["x"])
    br = el("br", None, sets if kind == "br" else [])
    p = el("p", dict({"xml:lang": "n2"}, **(ta if kind in ("p", "br") else {})), (sets if kind == "p" else []) + [span, br])
    div = el("div", dict({"xml:lang": "n1"}, **(ta if kind == "div" else {})), (sets if kind == "div" else []) + [p])
    body = el("body", dict({"xml:lang": "n0"}, **(ta if kind == "body" else {})), (sets if kind == "body" else []) + [div])
    if kind == "region":
      layout = el("region", dict({"xml:id": "r1"}, **ta), sets)
    return {"xml": tt(head("", layout) + body), "area": "set", "clause": "C04.set", "d": f"on={kind}"}
  return prod.n, decode


def fam_regiontime():
  prod = Product([FULL_T, [None] + FULL_T[1:], [False, True]])

  def decode(i):
    (b, d, e), st, two = prod.decode(i)
    sets = [] if st is None else [el("set", {"begin": st[0], "dur": st[1], "end": st[2], "tts:backgroundColor": "red"})]
    regs = el("region", {"xml:id": "r1", "begin": b, "dur": d, "end": e, "tts:backgroundColor": "blue"}, sets)
    if two:
      regs += el("region", {"xml:id": "r2", "begin": "2s"})
    body = el("body", {"xml:lang": "n0"}, [el("div", {"xml:lang": "n1", "region": "r1"}, [el("p", {"xml:lang": "n2", "end": "10s"}, ["x"])])])
    return {"xml": tt(head("", regs) + body), "area": "regiontime", "clause": "C04.time.region", "d": "region"}
  return prod.n, decode


def fam_initial():
  pairs = [("tts:color", "red"), ("tts:fontStyle", "italic"), ("tts:backgroundColor", "#00000080"), ("tts:fontSize", "80%"),
           ("tts:textAlign", "center"), ("tts:showBackground", "whenActive"), ("tts:lineHeight", "125%"), ("tts:wrapOption", "noWrap")]
  prod = Product([list(range(len(pairs))), list(range(len(pairs))), ["one-element", "two-elements"]])

  def decode(i):
    a, b, how = prod.decode(i)
    (an, av), (bn, bv) = pairs[a], pairs[b]
    if how == "one-element" or an == bn:
      st = el("initial", {an: av, bn: bv})
    else:
      st = el("initial", {an: av}) + el("initial", {bn: bv})
    st += el("style", {"xml:id": "s1", an: av})
    return {"xml": tt(head(st) + el("body", None, [el("div", None, [el("p", {"style": "s1"}, ["x"])])])), "area": "initial",
            "clause": "C04.initial", "d": how}
  return prod.n, decode


# ---------------------------------------------------------------------------------------------------
# E-dev: one attribute of a well-formed seed replaced by each value of a malformed menu

import re as _re
import xml.etree.ElementTree as _ET
from mc import refttml as _R

for _p, _u in (("", _R.NS_TT), ("tts", _R.NS_TTS), ("ttp", _R.NS_TTP), ("ittp", _R.NS_ITTP), ("itts", _R.NS_ITTS), ("ebutts", _R.NS_EBUTTS)):
  _ET.register_namespace(_p, _u)

_PREFIX = {_R.NS_TTS: "tts", _R.NS_TTP: "ttp", _R.NS_ITTP: "ittp", _R.NS_ITTS: "itts", _R.NS_EBUTTS: "ebutts", _R.NS_XML: "xml"}
_UNITS = _re.compile(r"(?<=\d)(px|em|c|%|rh|rw|ms|h|m|s|f|t)\b")


def _pname(qn):
  if qn.startswith("{"):
    ns, local = qn[1:].split("}")
    return f"{_PREFIX.get(ns, 'ns')}:{local}"
  return qn


def dev_menu(valid):
  first = valid.split(" ")[0]
  m = [("empty", ""), ("unknown-keyword", "bogus"), ("non-numeric", "x1y"), ("extra-component", valid + " " + first),
       ("extra-junk", valid + " bogus"), ("junk-suffix", valid + "xyz")]
  if _re.fullmatch(r"\d\d:\d\d:\d\d(\.\d+|:\d\d)?", valid):
    m += [("field-out-of-range", "00:75:00"), ("field-out-of-range", "00:00:75"), ("field-out-of-range", "00:61:61.5")]
  if valid.startswith("#") or valid.startswith("rgb") or valid in NAMED:
    m += [("component-out-of-range", "rgb(300,0,0)"), ("component-out-of-range", "rgba(1,2,3,400)")]
  if any(c in "0123456789" for c in valid) and not valid.startswith("#"):
    # TTML digits are "0".."9" only: the same value spelt with ARABIC-INDIC digits is malformed
    m.append(("non-ascii-digits", valid.translate({ord("0") + i: 0x0660 + i for i in range(10)})))
  nu = _UNITS.sub("", valid)
  if nu != valid:
    m.append(("missing-unit", nu))
  else:
    m.append(("number", "1"))
  return m


def dev_seeds():
  seeds = []
  # timing on every element kind, set, region
  t = {"begin": "1s", "dur": "2s", "end": "00:00:04"}
  tc = dict(t, timeContainer="seq")
  seeds.append(("timing", tt(head("", el("region", dict({"xml:id": "r1"}, **t))) + el("body", dict(tc, **{"xml:lang": "n0"}), [
    el("div", dict(tc, **{"xml:lang": "n1"}), [el("p", dict(t, timeContainer="par", region="r1", **{"xml:lang": "n2"}), [
      el("set", dict(t, **{"tts:color": "red"})), el("span", dict(t, **{"xml:lang": "n3", "xml:space": "preserve"}), ["x"])])])]))))
  # parameters (observable through frame and tick expressions and the document parameters)
  seeds.append(("param", tt(el("body", None, [el("div", None, [el("p", {"begin": "12f", "end": "00:00:02:05"}, ["x"]), el("p", {"begin": "30000000t", "dur": "1.5s"}, ["y"])])]),
                            {"ttp:frameRate": "24", "ttp:frameRateMultiplier": "1000 1001", "ttp:tickRate": "10000000", "ttp:cellResolution": "40 19",
                             "tts:extent": "640px 480px", "ittp:activeArea": "10% 10% 80% 80%", "ttp:displayAspectRatio": "16 9", "xml:space": "preserve"})))
  seeds.append(("param2", tt(el("body", None, [el("div", None, [el("p", {"begin": "1s"}, ["x"])])]), {"ittp:aspectRatio": "4 3"})))
  # referential styling and ruby
  seeds.append(("ref", tt(head(el("style", {"xml:id": "s1", "tts:color": "red"}) + el("style", {"xml:id": "s2", "style": "s1", "tts:fontStyle": "italic"}),
                               el("region", {"xml:id": "r1", "style": "s1"})) +
                          el("body", None, [el("div", None, [el("p", {"style": "s2"}, [el("span", {"tts:ruby": "container"}, [
                            el("span", {"tts:ruby": "base"}, ["b"]), el("span", {"tts:ruby": "text"}, ["t"])])])])]))))
  # every style attribute on every carrier
  for attr, vals in VALUES.items():
    seen = set()
    for lab, v in vals:
      if lab in seen or lab in ("one-char", "space-before-comma", "multi,comma-space", "3len+rgba()", "2len", "auto" if attr == "tts:extent" else ""):
        continue
      seen.add(lab)
      if len(seen) > 2:
        break
      for c in ("p", "style", "initial", "set", "nested"):
        seeds.append((f"{attr}@{c}", value_doc(attr, v, c)))
  return seeds


def fam_dev():
  """index table: (seed, element index, attribute, menu entry)"""
  cases = []
  skip = {"{%s}lang" % _R.NS_XML, "{%s}id" % _R.NS_XML, "region"}
  for name, xml in dev_seeds():
    root = _ET.fromstring(xml)
    only = None
    if "@" in name:
      only = name.split("@")[0]
    for ei, e in enumerate(root.iter()):
      for qn, val in e.attrib.items():
        pn = _pname(qn)
        if qn in skip or (only is not None and pn != only):
          continue
        for lab, bad in dev_menu(val):
          cases.append((xml, ei, qn, pn, lab, bad))

  def decode(i):
    xml, ei, qn, pn, lab, bad = cases[i]
    r1 = _ET.fromstring(xml)
    e1 = list(r1.iter())[ei]
    e1.attrib[qn] = bad
    r2 = _ET.fromstring(xml)
    e2 = list(r2.iter())[ei]
    del e2.attrib[qn]
    tag = e1.tag.split("}")[-1]
    return {"xml": _ET.tostring(r1, encoding="unicode"), "base": _ET.tostring(r2, encoding="unicode"), "attr": pn, "on": tag, "menu": lab,
            "area": "dev"}
  return len(cases), decode

"""Value menus for the 36 style properties (encoded as mc.spec tagged lists) — every keyword, every unit, every
special value, 1- and 2-shadow lists, families that need quoting.  Shared by C03, C05, C13, C14, C16."""
from __future__ import annotations

from mc.spec import L, C, E

RED = C(255, 0, 0)
BLUE_HALF = C(0, 0, 255, 128)
TRANSPARENT = C(0, 0, 0, 0)
WHITE = C(255, 255, 255)
GREEN = C(0, 128, 0)

LEN_ALL = ["%", "em", "c", "px", "rh", "rw"]


def S(x):
  return ["S", x]


def ext(h, w):
  return ["ext", h, w]


def org(x, y):
  return ["org", x, y]


def pos(h, v, he="left", ve="top"):
  return ["pos", h, v, he, ve]


def pad(*a):
  return ["pad"] + list(a)


VALUES = {
  "BackgroundColor": [RED, TRANSPARENT, BLUE_HALF],
  "Color": [RED, WHITE, BLUE_HALF],
  "Direction": [E("DirectionType", "ltr"), E("DirectionType", "rtl")],
  "Disparity": [L(2, "%"), L(10, "px"), L(1, "c"), L(0, "%")],
  "Display": [E("DisplayType", "auto"), E("DisplayType", "none")],
  "DisplayAlign": [E("DisplayAlignType", x) for x in ("before", "center", "after")],
  "Extent": [ext(L(50, "%"), L(80, "%")), ext(L(540, "px"), L(960, "px")), ext(L(5, "c"), L(16, "c")), ext(L(40, "rh"), L(60, "rw")),
             ext(L(50, "%"), L(16, "c")), ext(L(100, "%"), L(100, "%"))],
  "FillLineGap": [True, False],
  "FontFamily": [["ff", ["Arial"]], ["ff", [E("GenericFontFamilyType", "monospace")]], ["ff", ["Times New Roman", E("GenericFontFamilyType", "default")]],
                 ["ff", ["x,y"]], ["ff", ["quo\"te", "it's"]], ["ff", [E("GenericFontFamilyType", "proportionalSansSerif"), "Verdana"]]],
  "FontSize": [L(150, "%"), L(2, "em"), L(2, "c"), L(54, "px"), L(10, "rh"), L(5, "rw"), L(0.5, "c")],
  "FontStyle": [E("FontStyleType", x) for x in ("normal", "italic", "oblique")],
  "FontWeight": [E("FontWeightType", x) for x in ("normal", "bold")],
  "LineHeight": [S("normal"), L(125, "%"), L(1.5, "em"), L(2, "c"), L(60, "px"), L(8, "rh"), L(4, "rw")],
  "LinePadding": [L(0.5, "c"), L(0, "c"), L(1, "rh"), L(1, "rw")],
  "LuminanceGain": [1.0, 2.5],
  "MultiRowAlign": [E("MultiRowAlignType", x) for x in ("start", "center", "end", "auto")],
  "Opacity": [0, 0.5, 1.0],
  "Origin": [org(L(10, "%"), L(20, "%")), org(L(192, "px"), L(108, "px")), org(L(2, "c"), L(3, "c")), org(L(10, "rw"), L(20, "rh")), org(L(10, "%"), L(3, "c"))],
  "Overflow": [E("OverflowType", "visible"), E("OverflowType", "hidden")],
  "Padding": [pad(L(1, "%"), L(2, "%"), L(3, "%"), L(4, "%")), pad(L(1, "em"), L(0.5, "em"), L(1, "em"), L(0.5, "em")),
              pad(L(1, "c"), L(2, "c"), L(1, "c"), L(2, "c")), pad(L(10, "px"), L(20, "px"), L(30, "px"), L(40, "px")),
              pad(L(1, "rh"), L(1, "rw"), L(2, "rh"), L(2, "rw")), pad(L(5, "%"), L(1, "c"), L(10, "px"), L(1, "em"))],
  "Position": [pos(L(10, "%"), L(20, "%")), pos(L(10, "%"), L(20, "%"), "right", "bottom"), pos(L(96, "px"), L(54, "px"), "right", "top"),
               pos(L(2, "c"), L(1, "c"), "left", "bottom"), pos(L(5, "rw"), L(5, "rh"), "right", "bottom"), pos(L(50, "%"), L(50, "%")), pos(L(0, "%"), L(100, "%"))],
  "RubyAlign": [E("RubyAlignType", "center"), E("RubyAlignType", "spaceAround")],
  "RubyPosition": [E("AnnotationPositionType", x) for x in ("before", "after", "outside")],
  "RubyReserve": [S("none"), ["rr", "both", None], ["rr", "before", L(50, "%")], ["rr", "after", L(1, "em")], ["rr", "outside", L(1, "c")], ["rr", "both", L(30, "px")]],
  "Shear": [0.0, 16.67, -50.0],
  "ShowBackground": [E("ShowBackgroundType", "always"), E("ShowBackgroundType", "whenActive")],
  "TextAlign": [E("TextAlignType", x) for x in ("center", "start", "end")],
  "TextCombine": [E("TextCombineType", "none"), E("TextCombineType", "all")],
  "TextDecoration": [["td", True, None, None], ["td", False, True, None], ["td", None, None, True], ["td", True, True, True], ["td", False, False, False]],
  "TextEmphasis": [S("none"), ["te", "auto", None, "outside"], ["te", "filled_circle", RED, "before"], ["te", "open_sesame", None, "after"], ["te", "auto", BLUE_HALF, "before"]],
  "TextOutline": [S("none"), ["to", L(10, "%"), None], ["to", L(0.1, "em"), RED], ["to", L(0.1, "c"), None], ["to", L(3, "px"), BLUE_HALF], ["to", L(1, "rh"), None]],
  "TextShadow": [S("none"), ["ts", [[L(1, "px"), L(2, "px"), None, None]]], ["ts", [[L(10, "%"), L(0.1, "em"), L(0.1, "c"), RED]]],
                 ["ts", [[L(1, "px"), L(1, "px"), None, RED], [L(0.2, "em"), L(0.2, "em"), L(1, "px"), None]]], ["ts", [[L(1, "rh"), L(1, "rw"), None, None]]],
                 # lengths of exactly 0 in every relative unit (0 px is still not a root-container-relative length)
                 ["ts", [[L(0, "px"), L(0, "em"), L(0, "px"), None], [L(1, "c"), L(0, "%"), L(0, "c"), RED]]]],
  "UnicodeBidi": [E("UnicodeBidiType", x) for x in ("normal", "embed", "bidiOverride")],
  "Visibility": [E("VisibilityType", "visible"), E("VisibilityType", "hidden")],
  "WrapOption": [E("WrapOptionType", "wrap"), E("WrapOptionType", "noWrap")],
  "WritingMode": [E("WritingModeType", x) for x in ("lrtb", "rltb", "tbrl", "tblr")],
}

ALL_PROPS = sorted(VALUES)

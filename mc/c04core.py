"""C04 core: the abstraction of the REAL reader result, comparison against R_ttml, classification of mismatches.

abstract_model(doc) computes from `ttconv.imsc.reader.to_model` the same timed-tree abstraction that
refttml.canonical computes from the XML: absolute times by parent-relative accumulation (begin = parent begin +
offset, end clipped by the parent's end -- the documented meaning of the canonical model), so that C04 does not
depend on ttconv's ISD code.
"""
from __future__ import annotations

import logging
import xml.etree.ElementTree as ET
from fractions import Fraction

from mc import env  # noqa
from mc.kernel import exc_disc, innermost_ttconv_frame
from mc.spec import enc_val, PROP_NAME
from mc import refttml as R

import ttconv.model as model
import ttconv.imsc.reader as imsc_reader

KIND = {model.Body: "body", model.Div: "div", model.P: "p", model.Span: "span", model.Br: "br", model.Ruby: "ruby",
        model.Rb: "rb", model.Rt: "rt", model.Rp: "rp", model.Rbc: "rbc", model.Rtc: "rtc", model.Region: "region"}


# ---------------------------------------------------------------------------------------------------
# XML text helpers

def esc(s):
  return s.replace("&", "&amp;").replace("<", "&lt;").replace(">", "&gt;").replace('"', "&quot;")


def el(tag, attrs=None, kids=()):
  a = "".join(f' {k}="{esc(v)}"' for k, v in (attrs or {}).items() if v is not None)
  inner = "".join(kids)
  return f"<{tag}{a}>{inner}</{tag}>" if inner else f"<{tag}{a}/>"


def tt(inner, attrs=None, lang="en"):
  a = {}
  if lang is not None:
    a["xml:lang"] = lang
  a.update(attrs or {})
  at = "".join(f' {k}="{esc(v)}"' for k, v in a.items() if v is not None)
  return f"<tt {R.XML_DECL}{at}>{inner}</tt>"


def head(styling="", layout=""):
  s = (el("styling", None, [styling]) if styling else "") + (el("layout", None, [layout]) if layout else "")
  return el("head", None, [s]) if s else ""


# ---------------------------------------------------------------------------------------------------
# abstraction of the real model

def neutral(v):
  """mc.spec.enc_val encoding -> the encoding of refttml (enum class names dropped)"""
  if isinstance(v, tuple):
    if len(v) == 3 and v[0] == "E":
      return ("E", v[2])
    return tuple(neutral(x) for x in v)
  return v


def _styles_of(e):
  return R.norm_styles({PROP_NAME[p]: neutral(enc_val(e.get_style(p))) for p in e.iter_styles()})


def _walk(e, pb, pe, raw):
  if isinstance(e, model.Text):
    return ("text", e.get_text())
  kind = KIND[type(e)]
  is_region = kind == "region"
  eb, ee = (e.get_begin(), e.get_end()) if kind != "br" else (None, None)
  b = pb + (eb if eb is not None else 0)
  if ee is None:
    en = pe
  else:
    en = pb + ee
    if pe is not None and pe < en:
      en = pe
  if en is not None and en <= b:
    return None
  anims = []
  for a in e.iter_animation_steps():
    sb = b + (a.begin if a.begin is not None else 0)
    if a.end is None:
      se = en
    else:
      se = b + a.end
      if en is not None and en < se:
        se = en
    if se is not None and se <= sb:
      continue
    p = PROP_NAME[a.style_property]
    anims.append((p, sb, se, R.norm_value(p, neutral(enc_val(a.value)))))
  kids = []
  for c in e:
    cc = _walk(c, b, en, raw)
    if cc is not None:
      kids.append(cc)
  reg = e.get_id() if is_region else (e.get_region().get_id() if e.get_region() is not None else None)
  return R.el_tuple(kind, e.get_lang(), e.get_space().value, reg, _styles_of(e), tuple(anims), b, en, tuple(kids))


def _collect_raw(e, raw):
  """the model's own offsets of every element (also of those that can never be active), by marker"""
  if isinstance(e, model.Text):
    return
  is_region = isinstance(e, model.Region)
  key = ("r", e.get_id()) if is_region else ("l", e.get_lang())
  if key not in raw and not isinstance(e, model.Br):
    raw[key] = (e.get_begin(), e.get_end(), [(PROP_NAME[a.style_property], a.begin, a.end) for a in e.iter_animation_steps()])
  for c in e:
    _collect_raw(c, raw)


def abstract_model(doc, want_raw=True):
  """-> (canonical dict, raw): raw maps ('l', xml:lang marker) / ('r', region id) to the model's own (begin, end, steps)"""
  raw = {}
  cr = doc.get_cell_resolution()
  px = doc.get_px_resolution()
  aa = doc.get_active_area()
  regions = []
  for r in doc.iter_regions():
    c = _walk(r, Fraction(0), None, raw)
    if c is not None:
      regions.append(c)
  body = doc.get_body()
  if want_raw:
    for r in doc.iter_regions():
      _collect_raw(r, raw)
    if body is not None:
      _collect_raw(body, raw)
  canon = {
    "params": {"lang": doc.get_lang(), "cell": (cr.columns, cr.rows), "px": (px.width, px.height),
               "activeArea": None if aa is None else (aa.left_offset, aa.top_offset, aa.width, aa.height),
               "dar": doc.get_display_aspect_ratio()},
    "initials": R.norm_styles({PROP_NAME[p]: neutral(enc_val(v)) for p, v in doc.iter_initial_values()}),
    "regions": tuple(regions),
    "body": _walk(body, Fraction(0), None, raw) if body is not None else None,
  }
  return canon, raw


class LogCapture(logging.Handler):
  def __init__(self):
    super().__init__(level=0)
    self.records = []

  def emit(self, record):
    self.records.append((record.name, record.levelname, record.getMessage()))


def read_real(xml, capture=False):
  """runs the real reader on the XML text; returns (doc, log records of ttconv.imsc*)"""
  tree = ET.ElementTree(ET.fromstring(xml))
  lg = logging.getLogger("ttconv")
  h = LogCapture()
  lg.addHandler(h)
  try:
    doc = imsc_reader.to_model(tree)
  finally:
    lg.removeHandler(h)
  return doc, [r for r in h.records if r[0].startswith("ttconv.imsc")]


# ---------------------------------------------------------------------------------------------------
# local timing check: which element breaks the rule of appendix A, given the implementation's own values for its
# children and previous sibling (used only to NAME a mismatch that the snapshots have already established)

def _marker(n):
  if n.kind == "region":
    return ("r", n.region)
  return ("l", n.xml.attrib.get(R.q(R.NS_XML, "lang")))


def _rel(t, base):
  return None if t is None or base is None else t - base


INF = "inf"


def _cmp_end(a, b):
  return (a is None and b is None) or (a is not None and b is not None and a == b)


def local_check(rdoc, raw):
  """-> (clause, disc, note) of the deepest element whose own begin/end do not follow from the rule, or None"""
  found = []

  def impl_end_rel(c, parent):
    """end of child c relative to parent's begin, as the implementation has it (reference value when it is absent)"""
    if c.kind in ("anon", "set") or _marker(c) not in raw:
      return _rel(c.end, parent.begin) if c.end is not None else None
    return raw[_marker(c)][1]

  def check_children(n):
    """every content child of n against the rule, left to right, using the implementation's values of its children"""
    seq = n.tc == "seq"
    prev_end = Fraction(0)          # relative to n.begin
    first = True
    for c in _chain(n):
      sync = prev_end if seq else Fraction(0)
      if c.kind == "anon":
        cend = sync if seq else None
      elif c.kind == "set":
        cend = _rule_end(c, sync, sync if seq else None)
      else:
        exp_b = None if sync is None else sync + (c.xb if c.xb is not None else 0)
        kid_ends = [impl_end_rel(k, c) for k in _chain(c)]
        if c.kind in ("br", "region"):
          implicit_rel = Fraction(0) if seq else None
        elif not kid_ends:
          implicit_rel = Fraction(0)
        elif c.tc == "seq":
          implicit_rel = kid_ends[-1]
        else:
          implicit_rel = Fraction(0)
          for k in kid_ends:
            implicit_rel = None if implicit_rel is None or k is None else max(implicit_rel, k)
        implicit = None if implicit_rel is None or exp_b is None else exp_b + implicit_rel
        exp_e = _rule_end(c, sync, implicit)
        got = raw.get(_marker(c)) if c.kind != "br" else None
        if exp_b is not None and not found and c.kind != "br":
          zero = exp_e is not None and exp_e == exp_b
          feats = dict(self="leaf" if not _chain(c) else c.tc, parent="seq" if seq else "par", b=int(c.xb is not None),
                       d=int(c.xd is not None), e=int(c.xe is not None), first=int(first), offset=int(exp_b != 0), kind=c.kind)
          if got is None:
            if not zero:
              found.append(("missing", feats, f"element {c.kind} marker={_marker(c)} expected [{exp_b},{exp_e}) relative to its parent, absent from the model"))
          else:
            gb = got[0] if got[0] is not None else Fraction(0)
            if gb != exp_b:
              found.append(("begin", feats, f"{c.kind} marker={_marker(c)} begin offset {gb}, rule gives {exp_b}"))
            elif not _cmp_end(got[1], exp_e) and c.kind != "br":
              found.append(("end", feats, f"{c.kind} marker={_marker(c)} end offset {got[1]}, rule gives {exp_e} (implicit {implicit})"))
        cend = got[1] if (got is not None and c.kind != "br") else exp_e
        if got is not None and not found:
          sets = [s for s in c.sets if s.styles]
          steps = got[2]
          if len(sets) == len(steps):
            for s, (_p, sb, se) in zip(sets, steps):
              xb = s.xb if s.xb is not None else Fraction(0)
              xe = _rule_end(s, Fraction(0), None)
              if (sb if sb is not None else 0) != xb or not _cmp_end(se, xe):
                found.append(("set", dict(kind=c.kind, b=int(s.xb is not None), d=int(s.xd is not None), e=int(s.xe is not None)),
                              f"set on {c.kind}: step ({sb},{se}), rule gives ({xb},{xe})"))
                break
      prev_end = cend
      first = False

  def post(n):
    if n.kind != "br" and _marker(n) not in raw:
      return            # the element itself is absent from the model: its parent's check names it
    for c in n.children:
      if c.kind != "anon":
        post(c)
        if found:
          return
    check_children(n)

  def top(n):
    post(n)
    if not found:
      root = R.RNode("root")
      root.begin = Fraction(0)
      root.children = [n]
      check_children(root)

  for r in rdoc.regions:
    if not found:
      top(r)
  if rdoc.body is not None and not found:
    top(rdoc.body)
  if not found:
    return None
  what, f, note = found[0]
  if what == "set":
    on = f["kind"] if f["kind"] in ("region", "br") else "content"
    return ("C04.set", f"on={on},b={f['b']},d={f['d']},e={f['e']}", note)
  if f["kind"] == "region":
    return ("C04.time.region", f"{what},d={f['d']},e={f['e']}", note)
  if what == "begin":
    return ("C04.time.seq" if f["parent"] == "seq" else "C04.time.par", f"begin,b={f['b']},first={f['first']}", note)
  if f["d"]:
    return ("C04.time.dur", f"end={f['e']},offset={f['offset']},parent={f['parent']}", note)
  if f["e"]:
    return ("C04.time.seq" if f["parent"] == "seq" else "C04.time.par", f"end,b={f['b']},first={f['first']}", note)
  return ("C04.time.implicit", f"self={f['self']},offset={f['offset']}", note)


def _rule_end(n, sync, implicit):
  b = None if sync is None else sync + (n.xb if n.xb is not None else 0)
  if b is None:
    return None
  if n.xd is not None and n.xe is not None:
    return min(b + n.xd, sync + n.xe)
  if n.xd is not None:
    return b + n.xd
  if n.xe is not None:
    return sync + n.xe
  return implicit


def _chain(n):
  """children of n (content, anonymous spans, sets) in document order"""
  if n.xml is None:
    return list(n.children)
  order = []
  kids = [c for c in n.children if c.kind != "anon"]
  anons = [c for c in n.children if c.kind == "anon"]
  ki = ai = si = 0
  x = n.xml
  mixed = n.kind in R.MIXED

  def take_anon(t):
    nonlocal ai
    if mixed and t:
      order.append(anons[ai])
      ai += 1
  take_anon(x.text)
  for c in x:
    if c.tag == R.T_SET:
      order.append(n.sets[si])
      si += 1
    elif ki < len(kids) and kids[ki].xml is c:
      order.append(kids[ki])
      ki += 1
    take_anon(c.tail)
  return order


# ---------------------------------------------------------------------------------------------------
# snapshot diff

def first_diff(a, b):
  """first difference of two snapshot nodes in pre-order -> (aspect, detail) or None"""
  if a is None or b is None:
    return None if a is b else ("presence", "root")
  if a[0] == "text" or b[0] == "text":
    return None if a == b else ("text", f"{a!r} vs {b!r}"[:200])
  if a[0] != b[0]:
    return ("kind", f"{a[0]} vs {b[0]}")
  if a[1] != b[1]:
    return ("lang", f"{a[0]}: {a[1]!r} vs {b[1]!r}")
  if a[2] != b[2]:
    return ("space", f"{a[0]}: {a[2]!r} vs {b[2]!r}")
  if a[3] != b[3]:
    return ("region", f"{a[0]}: {a[3]!r} vs {b[3]!r}")
  if a[4] != b[4]:
    da, db = dict(a[4]), dict(b[4])
    props = sorted(p for p in set(da) | set(db) if da.get(p, "<absent>") != db.get(p, "<absent>"))
    return ("styles", ",".join(props))
  if len(a[5]) != len(b[5]):
    return ("children", f"{a[0]}: {[k[0] for k in a[5]]} vs {[k[0] for k in b[5]]}")
  for x, y in zip(a[5], b[5]):
    d = first_diff(x, y)
    if d is not None:
      return d
  return None


def diff_snapshots(rs, is_):
  (rr, rb), (ir, ib) = rs, is_
  if len(rr) != len(ir):
    return ("regions", f"{[r[3] for r in rr]} vs {[r[3] for r in ir]}")
  for x, y in zip(rr, ir):
    d = first_diff(x, y)
    if d is not None:
      return d
  return first_diff(rb, ib)


TIMED_AREAS = ("time", "set", "regiontime")

_SRC_BY_VALUE = {("C", 255, 0, 0, 255): "s1", ("C", 0, 128, 0, 255): "s2", ("C", 0, 0, 255, 255): "s3", ("C", 255, 255, 0, 255): "inline",
                 ("C", 0, 255, 255, 255): "n1", ("C", 128, 0, 128, 255): "n2"}
_SRC_BY_PROP = {"FontStyle": "s1", "FontWeight": "s2", "TextAlign": "s3", "BackgroundColor": "n1"}


def _find_tg(snap):
  regs, body = snap
  stack = list(regs) + ([body] if body is not None else [])
  while stack:
    n = stack.pop(0)
    if n[0] == "text":
      continue
    if n[1] == "tg":
      return n
    stack.extend(n[5])
  return None


def graph_disc(case, rs, is_):
  """names a styling mismatch of the F-graph family by the ROLE of the source that should have won and of the one
  that did: inline, nested-first/last, ref-first/last/only, chained, nested-ref, absent"""
  root = ET.fromstring(case["xml"])
  tgt = next(e for e in root.iter() if e.attrib.get(R.q(R.NS_XML, "lang")) == "tg")
  erefs = (tgt.attrib.get("style") or "").split()
  nested = [c for c in tgt if c.tag == R.T_STYLE]
  nested_refs = [r for n in nested for r in (n.attrib.get("style") or "").split()]

  def role(src):
    if src is None:
      return "absent"
    if src == "inline":
      return "inline"
    if src in ("n1", "n2"):
      return "nested-only" if len(nested) == 1 else ("nested-first" if src == "n1" else "nested-last")
    if src in erefs:
      return "ref-only" if len(erefs) == 1 else ("ref-last" if erefs[-1] == src else "ref-first")
    if src in nested_refs:
      return "nested-ref"
    return "chained"
  a, b = _find_tg(rs), _find_tg(is_)
  if a is None or b is None:
    return "target-missing"
  da, db = dict(a[4]), dict(b[4])
  out = []
  for p in sorted(set(da) | set(db)):
    if da.get(p) == db.get(p):
      continue
    if p == "Color":
      out.append(f"conflict:want={role(_SRC_BY_VALUE.get(da.get(p)))},got={role(_SRC_BY_VALUE.get(db.get(p)))}")
    else:
      src = _SRC_BY_PROP.get(p)
      out.append(f"unique:want={role(src) if p in da else 'absent'},got={role(src) if p in db else 'absent'}")
  return ";".join(sorted(set(out)))


def compare(case, rdoc, rc, ic, raw, acc):
  """reports every clause that fails; returns the number of violations"""
  d = case.get("d") or ""
  nv = 0
  for name, want in rc["params"].items():
    got = ic["params"][name]
    if name == "px" and want is None:
      continue            # no tts:extent on tt: the root container extent is implementation defined
    if want != got:
      clause = "C04.lang" if name == "lang" else f"C04.param.{name}"
      acc.violation(clause, (case.get("dp") or {}).get(name) or d or name, case, observed=got, expected=want, note=f"document parameter {name}")
      nv += 1
  if rc["initials"] != ic["initials"]:
    acc.violation(case["clause"] if case.get("area") == "value" else "C04.initial", d or "initial", case, observed=ic["initials"], expected=rc["initials"])
    nv += 1
  if rc["regions"] == ic["regions"] and rc["body"] == ic["body"]:
    return nv
  for t in R.probe_times(rc, ic):
    acc.count("probes")
    rs, is_ = R.snapshot(rc, t), R.snapshot(ic, t)
    if rs == is_:
      continue
    aspect, detail = diff_snapshots(rs, is_)
    clause = case.get("clause") or "C04.structure"
    disc = d or aspect
    note = f"t={t}: {aspect}: {detail}"
    if aspect in ("lang", "space"):
      clause, disc = f"C04.{aspect}", "on=" + detail.split(":")[0]
    if case.get("area") == "graph" and aspect == "styles" and case.get("clause") != "C04.style.nested.chain":
      disc = graph_disc(case, rs, is_)
      clause = "C04.style.chain" if "chained" in disc else "C04.style.precedence"
    if case.get("area") in TIMED_AREAS:
      lc = local_check(rdoc, raw)
      if lc is not None:
        clause, disc, n2 = lc
        note += "; " + n2
      elif aspect == "styles":
        clause, disc = "C04.set", "unmatched"          # in these families only an animation step can change a style over time
      else:
        clause, disc = "C04.time.other", aspect
    acc.violation(clause, disc, case, observed=is_, expected=rs, note=note)
    return nv + 1
  acc.count("equivalent_representation")
  return nv


def real_or_violation(case, acc, xml=None):
  """reads with the real reader; an escaping exception is a violation (clause C04.exception) -> None"""
  try:
    doc, logs = read_real(xml if xml is not None else case["xml"])
  except Exception as e:  # pylint: disable=broad-except
    if innermost_ttconv_frame(e.__traceback__) is None:
      raise
    acc.violation(case.get("exc_clause") or "C04.exception", exc_disc(e), case, observed=repr(e)[:300],
                  expected="a document (no exception for a well-formed TTML document)")
    return None, None, type(e).__name__
  return doc, logs, None

"""Reference CEA-608 caption decoder for one data channel (DESIGN.md 2.6 and appendix B) -- used by C08.

Written from CEA-608 / 47 CFR 15.119, independent of ttconv's scc package and of mc/ref608.py (the C17 word
table): the few dozen words the C08 alphabet needs are encoded here, with odd parity.

Model.  Two memories of 15 rows x 32 cells (displayed DM, non-displayed NM); a cell is None (transparent) or
(char, colour, italic, underline).  Mode pop-on / roll-up N / paint-on, one cursor, roll-up base row, pen
attributes, the last control word (a control pair that is repeated in the *next* frame is ignored once), the
current data channel (bit 3 of the first byte of the last control pair; printable pairs belong to it).

`Decoder.feed(word)` takes a 16 bit word (parity bits are stripped, not verified -- SCC files are commonly
stored without them); `Decoder.screen()` is the displayed memory as [(row, [cell, ...])]: the rows having a
non-blank cell, from their first to their last non-blank cell, interior transparent cells as None.

Variants.  `Decoder(dev=frozenset({...}))` switches single, named departures from CEA-608 on.  They are not
part of the reference; C08 uses them only to *name* a disagreement ("the reader behaves like the reference
with departure X"), so that every distinct defect gets its own signature.
"""
from __future__ import annotations

ROWS, COLS = 15, 32

WHITE, GREEN, BLUE, CYAN, RED, YELLOW, MAGENTA = "white", "green", "blue", "cyan", "red", "yellow", "magenta"
_COLOURS = [WHITE, GREEN, BLUE, CYAN, RED, YELLOW, MAGENTA]

# ------------------------------------------------------------------------------------------------------
# words


def odd_parity(b: int) -> int:
  """7 bit value -> byte with bit 7 set so that the number of one bits is odd"""
  b &= 0x7F
  return b | (0x00 if bin(b).count("1") % 2 == 1 else 0x80)


def word(b1: int, b2: int, parity: bool = True) -> int:
  if parity:
    return (odd_parity(b1) << 8) | odd_parity(b2)
  return ((b1 & 0x7F) << 8) | (b2 & 0x7F)


def hex4(w: int) -> str:
  return f"{w:04x}"


# miscellaneous control codes, channel 1, field 1: 0x14 0x2X (channel 2: 0x1C; field 2: 0x15 / 0x1D)
MISC = {"RCL": 0x20, "BS": 0x21, "AOF": 0x22, "AON": 0x23, "DER": 0x24, "RU2": 0x25, "RU3": 0x26, "RU4": 0x27,
        "FON": 0x28, "RDC": 0x29, "TR": 0x2A, "RTD": 0x2B, "EDM": 0x2C, "CR": 0x2D, "ENM": 0x2E, "EOC": 0x2F}
TABS = {"TO1": 0x21, "TO2": 0x22, "TO3": 0x23}     # 0x17 0x2X (channel 2: 0x1F)

# PAC: first byte and bit 5 of the second byte per row (CEA-608 table: rows 1..15)
_PAC_ROW = {1: (0x11, 0), 2: (0x11, 1), 3: (0x12, 0), 4: (0x12, 1), 5: (0x15, 0), 6: (0x15, 1), 7: (0x16, 0), 8: (0x16, 1),
            9: (0x17, 0), 10: (0x17, 1), 11: (0x10, 0), 12: (0x13, 0), 13: (0x13, 1), 14: (0x14, 0), 15: (0x14, 1)}
_ROW_OF = {v: k for k, v in _PAC_ROW.items()}


def ctrl(name: str, channel: int = 1) -> tuple:
  """(b1, b2) of a miscellaneous control code or tab offset"""
  ch = 0x08 if channel == 2 else 0
  if name in MISC:
    return (0x14 | ch, MISC[name])
  return (0x17 | ch, TABS[name])


def pac(row: int, indent=None, colour=WHITE, italic=False, underline=False, channel: int = 1) -> tuple:
  """(b1, b2) of a preamble address code.  indent in {0,4,...,28} selects an indent PAC (white), otherwise
  a colour/italics PAC."""
  b1, hi = _PAC_ROW[row]
  if channel == 2:
    b1 |= 0x08
  b2 = 0x40 | (0x20 if hi else 0)
  if indent is not None:
    assert indent % 4 == 0 and 0 <= indent <= 28
    b2 |= 0x10 | ((indent // 4) << 1)
  elif italic:
    b2 |= 0x0E
  else:
    b2 |= _COLOURS.index(colour) << 1
  if underline:
    b2 |= 1
  return (b1, b2)


def midrow(colour=None, italic=False, underline=False, channel: int = 1) -> tuple:
  """(b1, b2) of a mid-row code: a colour, or italics (which keeps the colour)"""
  b2 = 0x20 | (0x0E if italic else _COLOURS.index(colour) << 1) | (1 if underline else 0)
  return (0x11 | (0x08 if channel == 2 else 0), b2)


# characters ------------------------------------------------------------------------------------------
# standard set = ASCII except ten substitutions
STD_SUBST = {0x2A: "á", 0x5C: "é", 0x5E: "í", 0x5F: "ó", 0x60: "ú", 0x7B: "ç", 0x7C: "÷",
             0x7D: "Ñ", 0x7E: "ñ", 0x7F: "█"}


def std_char(b: int) -> str:
  return STD_SUBST.get(b, chr(b))


# special characters 0x11 0x30..0x3F
SPECIAL = ["®", "°", "½", "¿", "™", "¢", "£", "♪", "à", None, "è", "â",
           "ê", "î", "ô", "û"]      # index 9 = transparent space
# extended characters 0x12 0x20..0x3F (Spanish, miscellaneous, French) and 0x13 0x20..0x3F (Portuguese, German, Danish)
EXT_12 = ["Á", "É", "Ó", "Ú", "Ü", "ü", "‘", "¡", "*", "'", "━", "©", "℠", "•",
          "“", "”", "À", "Â", "Ç", "È", "Ê", "Ë", "ë", "Î", "Ï", "ï", "Ô",
          "Ù", "ù", "Û", "«", "»"]
EXT_13 = ["Ã", "ã", "Í", "Ì", "ì", "Ò", "ò", "Õ", "õ", "{", "}", "\\", "^", "_", "|", "~",
          "Ä", "ä", "Ö", "ö", "ß", "¥", "¤", "│", "Å", "å", "Ø", "ø", "┌",
          "┐", "└", "┘"]

# ------------------------------------------------------------------------------------------------------
# departures from CEA-608 that C08 can name (never part of the reference itself)

DEV_DUP_KEEPS_ACROSS_SKIPPED = "dup-across-null-or-other-channel"   # last control word survives null / other-channel words
DEV_PAINT_PAC_CLEARS_ROW = "painton-pac-clears-row"                 # a paint-on PAC erases the addressed row
DEV_MIDROW_ITALICS_RESETS_COLOUR = "midrow-italics-resets-colour"   # italics mid-row code sets the colour to white
DEV_ALL = (DEV_DUP_KEEPS_ACROSS_SKIPPED, DEV_PAINT_PAC_CLEARS_ROW, DEV_MIDROW_ITALICS_RESETS_COLOUR)


class Decoder:
  """CEA-608 decoder for data channel 1 of field 1"""

  def __init__(self, dev=frozenset()):
    self.dev = frozenset(dev)
    self.dm = [[None] * COLS for _ in range(ROWS)]
    self.nm = [[None] * COLS for _ in range(ROWS)]
    self.mode = None           # None | "pop" | "roll" | "paint"
    self.depth = 0             # roll-up depth N
    self.base = 15             # roll-up base row (1-based)
    self.row = 15              # cursor row (1-based)
    self.col = 0               # cursor column (0-based)
    self.pen = (WHITE, False, False)
    self.last_ctrl = None
    self.channel = 1
    self.acted = None          # what the last word did (diagnostics): None | "ignored-dup" | "other-channel" | name

  # -- helpers
  def _target(self):
    return self.nm if self.mode == "pop" else self.dm

  def _put(self, ch):
    if self.mode is None:
      return
    mem = self._target()
    mem[self.row - 1][self.col] = (ch,) + self.pen
    if self.col < COLS - 1:
      self.col += 1

  def _backspace(self):
    if self.mode is None:
      return
    if self.col > 0:
      self.col -= 1
      self._target()[self.row - 1][self.col] = None

  def _window(self):
    top = max(1, self.base - self.depth + 1)
    return top, self.base

  def _set_base(self, row):
    """roll-up: the window is relocated so that `row` is its base row (clamped so that it fits)"""
    row = max(row, self.depth)
    if row == self.base:
      return
    top, base = self._window()
    content = [self.dm[r - 1] for r in range(top, base + 1)]
    for r in range(top, base + 1):
      self.dm[r - 1] = [None] * COLS
    self.base = row
    ntop = row - len(content) + 1
    for i, cells in enumerate(content):
      self.dm[ntop + i - 1] = cells
    # everything outside the new window is not part of a roll-up display
    for r in range(1, ROWS + 1):
      if not ntop <= r <= row:
        self.dm[r - 1] = [None] * COLS

  # -- the decoder
  def feed(self, w: int):
    b1 = (w >> 8) & 0x7F
    b2 = w & 0x7F
    self.acted = None
    if b1 == 0 and b2 == 0:
      if DEV_DUP_KEEPS_ACROSS_SKIPPED not in self.dev:
        self.last_ctrl = None
      return
    if 0x10 <= b1 <= 0x1F:
      if self.last_ctrl == (b1, b2):
        self.last_ctrl = None
        self.acted = "ignored-dup"
        return
      ch = 2 if b1 & 0x08 else 1
      if (b1 & 0x77) == 0x15 and 0x20 <= b2 <= 0x2F:
        ch = 3          # the field-2 form of a miscellaneous control code: it addresses no channel of field 1
      if ch != 1:
        self.channel = ch
        if DEV_DUP_KEEPS_ACROSS_SKIPPED not in self.dev:
          self.last_ctrl = (b1, b2)
        self.acted = "other-channel"
        return
      self.last_ctrl = (b1, b2)
      self.channel = 1
      self._control(b1, b2)
      return
    # printable pair (b1 >= 0x20; 0x01..0x0F are XDS, never generated on field 1)
    if self.channel != 1 or b1 < 0x20:
      if DEV_DUP_KEEPS_ACROSS_SKIPPED not in self.dev:
        self.last_ctrl = None
      self.acted = "other-channel"
      return
    self.last_ctrl = None
    self._put(std_char(b1))
    if b2 >= 0x20:
      self._put(std_char(b2))
    self.acted = "text"

  def _control(self, b1, b2):
    if b2 >= 0x40:
      return self._pac(b1, b2)
    if b1 == 0x11 and 0x20 <= b2 <= 0x2F:
      return self._midrow(b2)
    if b1 == 0x11 and 0x30 <= b2 <= 0x3F:
      c = SPECIAL[b2 - 0x30]
      self.acted = "special"
      if c is None:       # transparent space: the cursor moves, the cell stays (becomes) transparent
        if self.mode is not None:
          self._target()[self.row - 1][self.col] = None
          if self.col < COLS - 1:
            self.col += 1
        return None
      return self._put(c)
    if b1 in (0x12, 0x13) and 0x20 <= b2 <= 0x3F:
      self.acted = "extended"
      self._backspace()
      return self._put((EXT_12 if b1 == 0x12 else EXT_13)[b2 - 0x20])
    if b1 == 0x17 and 0x21 <= b2 <= 0x23:
      self.acted = "TO"
      self.col = min(COLS - 1, self.col + (b2 - 0x20))
      return None
    if b1 == 0x14 and 0x20 <= b2 <= 0x2F:
      return self._misc(b2)
    return None             # background / reserved codes: not generated

  def _pac(self, b1, b2):
    key = (b1 & 0x17, 1 if b2 & 0x20 else 0)
    row = _ROW_OF.get(key)
    if row is None:
      return
    if row == 11 and b2 & 0x20:
      return                # 0x10 0x60..0x7F is not a PAC
    self.acted = "PAC"
    attr = b2 & 0x1F
    underline = bool(attr & 1)
    if attr & 0x10:
      indent = ((attr & 0x0E) >> 1) * 4
      pen = (WHITE, False, underline)
    else:
      indent = 0
      v = (attr & 0x0E) >> 1
      pen = (WHITE, True, underline) if v == 7 else (_COLOURS[v], False, underline)
    self.pen = pen
    if self.mode == "roll":
      self._set_base(row)
      self.row = self.base
      self.col = indent
      return
    self.row = row
    self.col = indent
    if self.mode == "paint" and DEV_PAINT_PAC_CLEARS_ROW in self.dev:
      self.dm[row - 1] = [None] * COLS

  def _midrow(self, b2):
    self.acted = "MID"
    v = (b2 & 0x0E) >> 1
    underline = bool(b2 & 1)
    # the code occupies a cell that is displayed as a space
    self._put(" ")
    if v == 7:
      colour = WHITE if DEV_MIDROW_ITALICS_RESETS_COLOUR in self.dev else self.pen[0]
      self.pen = (colour, True, underline)
    else:
      self.pen = (_COLOURS[v], False, underline)

  def _misc(self, b2):
    name = next(k for k, v in MISC.items() if v == b2)
    self.acted = name
    if name == "RCL":
      self.mode = "pop"
    elif name == "RDC":
      self.mode = "paint"
    elif name in ("RU2", "RU3", "RU4"):
      n = int(name[2])
      if self.mode != "roll":
        # entering roll-up from pop-on / paint-on (or at start): both memories are erased, base row 15
        self.dm = [[None] * COLS for _ in range(ROWS)]
        self.nm = [[None] * COLS for _ in range(ROWS)]
        self.base = 15
        self.mode = "roll"
        self.depth = n
        self.row, self.col = self.base, 0
      else:
        if n < self.depth:
          top, base = self._window()
          for r in range(top, base - n + 1):
            self.dm[r - 1] = [None] * COLS
        self.depth = n
        if self.base < n:
          self._set_base(n)
        self.row = self.base
    elif name == "BS":
      self._backspace()
    elif name == "DER":
      if self.mode is not None:
        mem = self._target()
        for c in range(self.col, COLS):
          mem[self.row - 1][c] = None
    elif name == "CR":
      if self.mode == "roll":
        top, base = self._window()
        for r in range(top, base):
          self.dm[r - 1] = self.dm[r]
        self.dm[base - 1] = [None] * COLS
        self.row, self.col = base, 0
    elif name == "EDM":
      self.dm = [[None] * COLS for _ in range(ROWS)]
    elif name == "ENM":
      self.nm = [[None] * COLS for _ in range(ROWS)]
    elif name == "EOC":
      self.dm, self.nm = self.nm, self.dm
      self.mode = "pop"
    # AOF, AON, FON, TR, RTD: not generated

  # -- observation
  @staticmethod
  def _is_blank(cell):
    return cell is None or cell[0] == " "

  @classmethod
  def rows_of(cls, mem):
    out = []
    for r in range(ROWS):
      cells = mem[r]
      if cells.count(None) == len(cells):
        continue
      idx = [i for i, c in enumerate(cells) if c is not None and c[0] != " "]
      if idx:
        out.append((r + 1, idx[0], tuple(cells[idx[0]:idx[-1] + 1])))
    return out

  def screen(self):
    """[(row, first column, (cell, ...))] of the displayed memory"""
    return self.rows_of(self.dm)

  def blank(self, which="dm"):
    mem = self.dm if which == "dm" else self.nm
    return not self.rows_of(mem)

  @staticmethod
  def _mem_key(mem):
    out = []
    for r in range(ROWS):
      cells = mem[r]
      if cells.count(None) != len(cells):
        last = max(i for i, c in enumerate(cells) if c is not None)
        out.append((r + 1, tuple(cells[:last + 1])))
    return tuple(out)

  def key(self):
    """complete decoder state (hashable)"""
    return (self.mode, self.depth, self.base, self.row, self.col, self.pen, self.last_ctrl, self.channel,
            self._mem_key(self.dm), self._mem_key(self.nm))


def screen_text(screen):
  """[(row, text)] with transparent interior cells shown as spaces"""
  return [(row, "".join(" " if c is None else c[0] for c in cells)) for row, _c0, cells in screen]


def run_words(words, dev=frozenset()):
  """feeds the words; returns the decoder and the list of screens after each word"""
  d = Decoder(dev)
  screens = []
  for w in words:
    d.feed(w)
    screens.append(d.screen())
  return d, screens
